import L4.Basic
import L4.Gen.Consts
/-!
# Layered connection model (C01, C06, C12, C17)

`Src` mirrors the chain of `net.Conn`s that exists behind a `*layer4.Connection`:

* `raw chunks last` – the client's socket as scripted by the harness: every `Read` returns (a prefix of)
                      the next chunk; no chunk left = end of stream / deadline error; with `last` the read that
                      hands out the final bytes of the script reports the end of the stream *together with* them
                      (`n > 0, io.EOF`, allowed by the `io.Reader` contract and done by `crypto/tls`);
* `l4 buf off frozen matching inner` – `layer4.Connection` (fields `buf`, `offset`, `frozenOffset`, `matching`);
* `bufio pending size inner` – `bufio.Reader` of the PROXY protocol handler (`size` = 4096);
* `limit batch inner` – `throttledConn` (a read pulls at most `batch` bytes);
* `tee log inner`   – `io.TeeReader` of the tee handler: every byte read is also appended to `log`
                      (what the branch's pipe receives);
* `strip k inner`   – a wrapper that swallows the first `k` bytes (header stripping seen from above).

`Src.read s n` is one call `Read(p)` with `len(p) = n` and follows the branch structure of the Go code.
`Src.logical s` is the client's stream from the first byte no handler has consumed yet.
-/
namespace L4

inductive RErr | none | eof | consumed
  deriving Repr, DecidableEq, Inhabited

inductive Src where
  | raw (chunks : List Bytes) (last : Bool)
  | l4 (buf : Bytes) (off frozen : Nat) (matching : Bool) (inner : Src)
  | bufio (pending : Bytes) (size : Nat) (inner : Src)
  | limit (batch : Nat) (inner : Src)
  | tee (log : Bytes) (inner : Src)
  deriving Repr, Inhabited

namespace Src

def logical : Src → Bytes
  | .raw cs _ => cs.flatten
  | .l4 buf off _ _ inner => buf.drop off ++ inner.logical
  | .bufio p _ inner => p ++ inner.logical
  | .limit _ inner => inner.logical
  | .tee _ inner => inner.logical

/-- one `Read(p)` with `len(p) = n` -/
def read : Src → Nat → (Bytes × RErr) × Src
  | .raw [] l, _ => (([], .eof), .raw [] l)
  | .raw (c :: cs) l, n =>
      if c.length ≤ n then ((c, if l && cs.isEmpty then .eof else .none), .raw cs l)
      else ((c.take n, .none), .raw (c.drop n :: cs) l)
  | .l4 buf off fr m inner, n =>
      -- if cx.matching && (len(cx.buf) == 0 || len(cx.buf) == cx.offset)
      if m && (buf.length == 0 || buf.length == off) then (([], .consumed), .l4 buf off fr m inner)
      -- if len(cx.buf) > 0 && cx.offset < len(cx.buf)
      else if 0 < buf.length && off < buf.length then
        let out := (buf.drop off).take n
        let off' := off + out.length
        if !m && off' == buf.length then ((out, .none), .l4 [] 0 fr m inner)
        else ((out, .none), .l4 buf off' fr m inner)
      else
        let (r, inner') := inner.read n
        (r, .l4 buf off fr m inner')
  | .bufio p sz inner, n =>
      -- bufio.Reader.Read: `if len(p) == 0 { return 0, b.readErr() }` without touching the source
      if n = 0 then (([], .none), .bufio p sz inner)
      else if p.length = 0 then
        if n ≥ sz then
          let (r, inner') := inner.read n
          (r, .bufio [] sz inner')
        else
          let ((d, e), inner') := inner.read sz
          ((d.take n, if d.length = 0 then e else .none), .bufio (d.drop n) sz inner')
      else ((p.take n, .none), .bufio (p.drop n) sz inner)
  | .limit batch inner, n =>
      let (r, inner') := inner.read (min n batch)
      (r, .limit batch inner')
  | .tee log inner, n =>
      let ((d, e), inner') := inner.read n
      ((d, e), .tee (log ++ d) inner')

/-- no `layer4.Connection` of the chain is in matching mode -/
def noMatching : Src → Prop
  | .raw _ _ => True
  | .l4 _ _ _ m inner => m = false ∧ inner.noMatching
  | .bufio _ _ inner => inner.noMatching
  | .limit _ inner => inner.noMatching
  | .tee _ inner => inner.noMatching

/-- cursors are inside their buffers -/
def wf : Src → Prop
  | .raw _ _ => True
  | .l4 buf off _ _ inner => off ≤ buf.length ∧ inner.wf
  | .bufio _ _ inner => inner.wf
  | .limit _ inner => inner.wf
  | .tee _ inner => inner.wf

/-- everything the tee layers of the chain have copied to their branches, innermost first -/
def teeLogs : Src → List Bytes
  | .raw _ _ => []
  | .l4 _ _ _ _ inner => inner.teeLogs
  | .bufio _ _ inner => inner.teeLogs
  | .limit _ inner => inner.teeLogs
  | .tee log inner => inner.teeLogs ++ [log]

end Src

/-! ## the `layer4.Connection` operations on the outermost node -/

/-- `cx.freeze()` -/
def Src.freeze : Src → Src
  | .l4 buf off _ _ inner => .l4 buf off off true inner
  | s => s

/-- `cx.unfreeze()` -/
def Src.unfreeze : Src → Src
  | .l4 buf _ fr _ inner => .l4 buf fr fr false inner
  | s => s

/-- `cx.MatchingBytes()` -/
def Src.avail : Src → Bytes
  | .l4 buf off _ _ _ => buf.drop off
  | _ => []

def Src.bufLen : Src → Nat
  | .l4 buf _ _ _ _ => buf.length
  | _ => 0

inductive Abort | timeout | full | eof
  deriving Repr, DecidableEq, Inhabited

/-- `cx.prefetch()`: one read of at most `prefetchChunkSize` bytes from the *underlying* conn, appended to `buf`,
refused when `len(buf) ≥ MaxMatchingBytes`. Both Go branches (in place / pooled tmp + append) have this value
semantics. Bytes that arrive together with a read error are appended and the call succeeds (`if err != nil && n == 0
{ return err }`): the error is seen by the next read. Only an error without bytes aborts. -/
def Src.prefetch : Src → Except Abort Src
  | .l4 buf off fr m inner =>
    if buf.length < Gen.layer4_MaxMatchingBytes then
      let ((d, e), inner') := inner.read Gen.layer4_prefetchChunkSize
      if e != .none && d.length == 0 then .error .eof
      else .ok (.l4 (buf ++ d) off fr m inner')
    else .error .full
  | _ => .error .eof

/-- `cx.prefetch()` as it was before the repair (`if err != nil { return err }` although the bytes had been appended
and, worse, were never looked at again because the router gives up on the error): returns the verdict and the state
the connection is left in. Kept for the witness theorem only. -/
def Src.prefetchOld : Src → Except Abort Unit × Src
  | .l4 buf off fr m inner =>
    if buf.length < Gen.layer4_MaxMatchingBytes then
      let ((d, e), inner') := inner.read Gen.layer4_prefetchChunkSize
      if e != .none then (.error .eof, .l4 (buf ++ d) off fr m inner')
      else (.ok (), .l4 (buf ++ d) off fr m inner')
    else (.error .full, .l4 buf off fr m inner)
  | s => (.error .eof, s)

/-- `cx.Wrap(conn)` after the repair: the new Connection takes over `buf/offset` only when they are drained;
`w` builds the wrapper conn that reads through the old Connection. -/
def Src.wrap (s : Src) (w : Src → Src) : Src :=
  match s with
  | .l4 buf off _ m _ =>
    if off < buf.length then .l4 [] 0 0 m (w s) else .l4 buf off 0 m (w s)
  | _ => .l4 [] 0 0 false (w s)

/-- `cx.Wrap(conn)` as it was before the repair (buffer and cursor copied although the wrapped conn still reads
through the old Connection): kept for the witness theorem only. -/
def Src.wrapOld (s : Src) (w : Src → Src) : Src :=
  match s with
  | .l4 buf off _ m _ => .l4 buf off 0 m (w s)
  | _ => .l4 [] 0 0 false (w s)

/-- repeated reads of the given sizes; returns everything read -/
def Src.reads : Src → List Nat → Bytes × Src
  | s, [] => ([], s)
  | s, n :: ns =>
    let ((d, _), s') := s.read n
    let (ds, s'') := s'.reads ns
    (d ++ ds, s'')

end L4

import L4.Basic
import L4.Conn
/-!
# Router model (C02, C05): a transcription of `RouteList.Compile` (layer4/routes.go)

The router is generic in the connection type `κ`: it only uses the operations of `ConnOps` —
the bytes available for matching, `prefetch`, and arming / clearing the read deadline.
Matchers are arbitrary functions `κ → Verdict` (their purity w.r.t. the connection is C06), handlers arbitrary
functions `κ → List Ev × HRes κ`; the router itself has exactly that type, so `subroute` is an instance:
`subroute.Handle(cx, next) = Compile(inner, next).Handle(cx)`.
-/
namespace L4

/-- result of a handler chain: it either did not call `next` (terminal: the connection was consumed or dropped),
called `next` with a possibly wrapped connection, or returned an error -/
inductive HRes (κ : Type) where
  | terminal
  | next (cx : κ)
  | fail
  deriving Repr

/-- events of one routing level; events emitted by the handlers of route `i` are wrapped in `inner i` -/
inductive Ev (κ : Type) where
  | run (i : Nat) (cx : κ)            -- handlers of route i invoked on cx
  | inner (i : Nat) (e : Ev κ)        -- something a handler of route i did (e.g. a nested router's event)
  | abort (why : Abort)               -- matching ended by timeout / full buffer / end of stream
  | merr (i : Nat)                    -- a matcher of route i returned an error
  | herr (i : Nat)                    -- a handler of route i returned an error
  | deadlineErr                       -- SetReadDeadline failed (never with the modelled conns)
  | outOfFuel
  deriving Repr

structure ConnOps (κ : Type) where
  /-- `cx.MatchingBytes()`: what matchers can see -/
  avail : κ → Bytes
  /-- `cx.prefetch()` under the currently armed deadline -/
  prefetch : κ → Except Abort κ
  /-- `cx.Conn.SetReadDeadline(now+timeout)` (`true`) / `SetReadDeadline(time.Time{})` (`false`) -/
  arm : Bool → κ → κ

abbrev Matcher (κ : Type) := κ → Verdict
abbrev MatcherSet (κ : Type) := List (Matcher κ)

/-- `MatcherSet.Match`: AND, left to right, first verdict that is not `yes` is returned -/
def setMatch {κ} : MatcherSet κ → κ → Verdict
  | [], _ => .yes
  | m :: ms, cx => match m cx with
    | .yes => setMatch ms cx
    | v => v

/-- `MatcherSets.AnyMatch`: OR; an error (incl. "need more") of a set ends the evaluation; no sets = match all -/
def anyMatchAux {κ} : List (MatcherSet κ) → κ → Verdict
  | [], _ => .no
  | s :: ss, cx => match setMatch s cx with
    | .no => anyMatchAux ss cx
    | v => v

def anyMatch {κ} (ss : List (MatcherSet κ)) (cx : κ) : Verdict :=
  if ss.isEmpty then .yes else anyMatchAux ss cx

/-- `MatchNot.Match` -/
def notMatch {κ} : List (MatcherSet κ) → κ → Verdict
  | [], _ => .yes
  | s :: ss, cx => match setMatch s cx with
    | .yes => .no
    | .no => notMatch ss cx
    | v => v

structure Route (κ : Type) where
  sets : List (MatcherSet κ)
  h : κ → List (Ev κ) × HRes κ

inductive St3 | needsMore | notMatched | matched
  deriving DecidableEq, Repr

/-- `lastMatchedRouteIdx` / `lastNeedsMoreIdx` are stored +1 (0 encodes −1) -/
structure RS where
  lm : Nat := 0
  lnm : Nat := 0
  status : Nat → Option St3 := fun _ => none
  needMore : Bool := false

def RS.set (rs : RS) (i : Nat) (s : St3) : RS :=
  { rs with status := fun j => if j = i then some s else rs.status j }

inductive PassOut (κ : Type) where
  | done (rs : RS) (cx : κ) (tr : List (Ev κ))    -- the `for i, route := range routes` loop ended (or hit `break`)
  | stop (tr : List (Ev κ)) (r : HRes κ)           -- `return` from inside the loop

variable {κ : Type}

/-- the body of `for i, route := range routes` from index `i` on -/
def pass (K : ConnOps κ) : List (Route κ) → Nat → RS → κ → List (Ev κ) → PassOut κ
  | [], _, rs, cx, tr => .done rs cx tr
  | r :: rest, i, rs, cx, tr =>
    if i + 1 ≤ rs.lm then pass K rest (i+1) rs cx tr
    else if rs.status i = some .notMatched ∧ i + 1 ≤ rs.lnm then pass K rest (i+1) rs cx tr
    else match anyMatch r.sets cx with
      | .more =>
        let rs' := { rs.set i .needsMore with lnm := i + 1 }
        if !rs.needMore then .done rs' cx tr else pass K rest (i+1) rs' cx tr
      | .no => pass K rest (i+1) (rs.set i .notMatched) cx tr
      | .yes =>
        let rs' := { rs.set i .matched with lm := i + 1, lnm := i + 1 }
        let cx0 := K.arm false cx
        match r.h cx0 with
        | (hev, .terminal) => .stop (tr ++ [.run i cx0] ++ hev.map (.inner i)) .terminal
        | (hev, .fail) => .stop (tr ++ [.run i cx0] ++ hev.map (.inner i) ++ [.herr i]) .fail
        | (hev, .next cx') => pass K rest (i+1) rs' cx' (tr ++ [.run i cx0] ++ hev.map (.inner i))
      | _ => .stop (tr ++ [.merr i]) .terminal

def undecided (rs : RS) (n : Nat) : Bool :=
  (List.range n).any fun i => i + 1 > rs.lm && rs.status i == some .needsMore

/-- the `loop:` label: one iteration per prefetch round -/
def round (K : ConnOps κ) (routes : List (Route κ)) : Nat → RS → κ → List (Ev κ) → List (Ev κ) × HRes κ
  | 0, _, _, tr => (tr ++ [.outOfFuel], .terminal)
  | f+1, rs, cx, tr =>
    let cx := K.arm true cx
    match (if rs.needMore then K.prefetch cx else .ok cx) with
    | .error why => (tr ++ [.abort why], .terminal)
    | .ok cx1 =>
      match pass K routes 0 rs cx1 tr with
      | .stop tr' r => (tr', r)
      | .done rs' cx' tr' =>
        if rs'.lm = routes.length then (tr', .next (if rs'.lm = 0 then K.arm false cx' else cx'))   -- empty list: deadline cleared
        else if undecided rs' routes.length then round K routes f { rs' with needMore := true } cx' tr'
        else (tr', .next (K.arm false cx'))

/-- `routes.Compile(logger, timeout, next).Handle(cx)` up to the call of `next`: `.next cx'` means `next.Handle(cx')` -/
def route (K : ConnOps κ) (routes : List (Route κ)) (fuel : Nat) (cx : κ) : List (Ev κ) × HRes κ :=
  round K routes fuel {} cx []

/-! ## instantiation on the layered connection model -/

def srcOps : ConnOps Src where
  avail := Src.avail
  prefetch := Src.prefetch
  arm := fun _ s => s

end L4
